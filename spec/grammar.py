"""Reference skeleton grammar of the OpenQASM 3 constructs the front end supports (oracle for C04/C05/C16).

Terminals are token CLASSES: a slot stands for every token kind of its class and is decided by the solver, so a
skeleton with k slots of sizes c_i stands for prod(c_i) programs.  Sources: OpenQASM 3 live specification,
"Types and Casting", "Gates", "Built-in quantum instructions", "Classical instructions", "Subroutines",
"Directives", and the reference ANTLR grammar qasm3Parser.g4 (statement / expression rules).

A skeleton is a list of items:
    "KIND"                       concrete token kind
    ("slot", "CLASS")            one symbolic token constrained to CLASSES[CLASS]
    ("binop",) / ("binop", sub)  a binary operator (1-3 raw tokens, pieces joint), optionally a named subset
    ("cmpassign",)               a compound assignment operator (2-3 raw tokens, pieces joint)
    ("joint", [kinds])           a fixed multi-character token written without separators (->, ++, **=)
"""

CLASSES = {
    # qasm3Parser.g4 scalarType: BIT|INT|UINT|FLOAT|ANGLE|BOOL|DURATION|STRETCH|COMPLEX
    "TYPE": ["INT_TY", "UINT_TY", "FLOAT_TY", "ANGLE_TY", "BIT_TY", "BOOL_TY", "DURATION_TY", "STRETCH_TY", "COMPLEX_TY"],
    # types that take a designator  (spec "Types and Casting")
    "TYPEW": ["INT_TY", "UINT_TY", "FLOAT_TY", "ANGLE_TY", "BIT_TY"],
    # literal atoms usable as a plain expression
    "LIT": ["INT_NUMBER", "FLOAT_NUMBER", "BIT_STRING", "TRUE_KW", "FALSE_KW"],
    "ATOM": ["IDENT", "INT_NUMBER", "FLOAT_NUMBER", "BIT_STRING", "TRUE_KW", "FALSE_KW"],
    "NUM": ["INT_NUMBER", "FLOAT_NUMBER"],
    "UNOP": ["MINUS", "BANG", "TILDE"],
    "QUBIT": ["IDENT", "HARDWAREIDENT"],
    "IO": ["INPUT_KW", "OUTPUT_KW"],
    "CTRL": ["CTRL_KW", "NEGCTRL_KW"],
    "ARRBASE": ["INT_TY", "UINT_TY", "FLOAT_TY", "ANGLE_TY", "BOOL_TY", "DURATION_TY", "COMPLEX_TY"],
    "ARRMOD": ["MUTABLE_KW", "READONLY_KW"],
    "BOOLLIT": ["TRUE_KW", "FALSE_KW"],
    # designators, register sizes and indices: integer literal or (const) identifier
    "IDX": ["IDENT", "INT_NUMBER"],
}

# 19 binary operators: spelling as raw punctuation kinds, precedence level (higher binds tighter), associativity
# (OpenQASM 3 spec, "Classical instructions", table "operator precedence"; qasm3Parser.g4 expression alternatives)
BINOPS = {
    "||": (["PIPE", "PIPE"], 1, "L"), "&&": (["AMP", "AMP"], 2, "L"), "|": (["PIPE"], 3, "L"), "^": (["CARET"], 4, "L"),
    "&": (["AMP"], 5, "L"), "==": (["EQ", "EQ"], 6, "L"), "!=": (["BANG", "EQ"], 6, "L"),
    "<": (["L_ANGLE"], 7, "L"), ">": (["R_ANGLE"], 7, "L"), "<=": (["L_ANGLE", "EQ"], 7, "L"), ">=": (["R_ANGLE", "EQ"], 7, "L"),
    "<<": (["L_ANGLE", "L_ANGLE"], 8, "L"), ">>": (["R_ANGLE", "R_ANGLE"], 8, "L"),
    "+": (["PLUS"], 9, "L"), "-": (["MINUS"], 9, "L"),
    "*": (["STAR"], 10, "L"), "/": (["SLASH"], 10, "L"), "%": (["PERCENT"], 10, "L"),
    "**": (["STAR", "STAR"], 12, "R"),
}
UNARY_LEVEL = 11   # ! - ~ bind tighter than * / % and looser than **
CMPASSIGN = {
    "+=": ["PLUS", "EQ"], "-=": ["MINUS", "EQ"], "*=": ["STAR", "EQ"], "/=": ["SLASH", "EQ"], "&=": ["AMP", "EQ"], "|=": ["PIPE", "EQ"],
    "^=": ["CARET", "EQ"], "%=": ["PERCENT", "EQ"], "<<=": ["L_ANGLE", "L_ANGLE", "EQ"], ">>=": ["R_ANGLE", "R_ANGLE", "EQ"],
}


def slot(c):
    return ("slot", c)


BIN = ("binop",)
ARROW = ("joint", ["MINUS", "R_ANGLE"])   # "->" : two raw tokens that must be adjacent


# ------------------------------------------------------------------ expressions
def exprs(depth):
    """named expression skeletons up to nesting depth"""
    out = [("atom", [slot("ATOM")]), ("timing", [slot("NUM"), "IDENT"])]
    if depth >= 1:
        out += [
            ("unary", [slot("UNOP"), slot("ATOM")]),
            ("binary", [slot("ATOM"), BIN, slot("ATOM")]),
            ("paren", ["L_PAREN", slot("ATOM"), "R_PAREN"]),
            ("call0", ["IDENT", "L_PAREN", "R_PAREN"]),
            ("call1", ["IDENT", "L_PAREN", slot("ATOM"), "R_PAREN"]),
            ("call2", ["IDENT", "L_PAREN", slot("ATOM"), "COMMA", slot("ATOM"), "R_PAREN"]),
            ("index", ["IDENT", "L_BRACK", slot("ATOM"), "R_BRACK"]),
            ("index_range", ["IDENT", "L_BRACK", slot("ATOM"), "COLON", slot("ATOM"), "R_BRACK"]),
            ("cast", [slot("TYPE"), "L_PAREN", slot("ATOM"), "R_PAREN"]),
            ("castw", [slot("TYPEW"), "L_BRACK", "INT_NUMBER", "R_BRACK", "L_PAREN", slot("ATOM"), "R_PAREN"]),
        ]
    if depth >= 2:
        out += [
            ("binary3", [slot("ATOM"), BIN, slot("ATOM"), BIN, slot("ATOM")]),
            ("unary_binary", [slot("UNOP"), slot("ATOM"), BIN, slot("ATOM")]),
            ("binary_unary", [slot("ATOM"), BIN, slot("UNOP"), slot("ATOM")]),
            ("paren_binary", ["L_PAREN", slot("ATOM"), BIN, slot("ATOM"), "R_PAREN", BIN, slot("ATOM")]),
            ("binary_paren", [slot("ATOM"), BIN, "L_PAREN", slot("ATOM"), BIN, slot("ATOM"), "R_PAREN"]),
            ("call_binary", ["IDENT", "L_PAREN", slot("ATOM"), BIN, slot("ATOM"), "R_PAREN"]),
            ("binary_call_index", [slot("ATOM"), BIN, "IDENT", "L_PAREN", slot("ATOM"), "R_PAREN", BIN, "IDENT", "L_BRACK", slot("ATOM"), "R_BRACK"]),
            ("index2", ["IDENT", "L_BRACK", slot("ATOM"), "R_BRACK", "L_BRACK", slot("ATOM"), "R_BRACK"]),
            ("index_multi", ["IDENT", "L_BRACK", slot("ATOM"), "COMMA", slot("ATOM"), "R_BRACK"]),
            ("cast_binary", [slot("TYPE"), "L_PAREN", slot("ATOM"), BIN, slot("ATOM"), "R_PAREN"]),
            ("paren2", ["L_PAREN", "L_PAREN", slot("ATOM"), "R_PAREN", "R_PAREN"]),
            ("unary_paren", [slot("UNOP"), "L_PAREN", slot("ATOM"), BIN, slot("ATOM"), "R_PAREN"]),
            ("unary2", [slot("UNOP"), slot("UNOP"), slot("ATOM")]),
        ]
    return out


ATOM = [slot("ATOM")]
Q1 = [slot("QUBIT")]


def qargs():
    return [("q", [slot("QUBIT")]), ("qq", [slot("QUBIT"), "COMMA", slot("QUBIT")]),
            ("qidx", ["IDENT", "L_BRACK", slot("IDX"), "R_BRACK"]), ("qidx_q", ["IDENT", "L_BRACK", "INT_NUMBER", "R_BRACK", "COMMA", slot("QUBIT")])]


def simple_stmts():
    """short statements used as bodies"""
    return [("gatecall", ["IDENT", "IDENT", "SEMICOLON"]), ("assign", ["IDENT", "EQ", slot("ATOM"), "SEMICOLON"]),
            ("break", ["BREAK_KW", "SEMICOLON"]), ("decl", [slot("TYPE"), "IDENT", "SEMICOLON"])]


def bodies(depth):
    """(name, tokens) for the body position of if/while/for: block or single statement"""
    out = [("emptyblock", ["L_CURLY", "R_CURLY"])]
    for n, s in simple_stmts():
        out.append(("block_" + n, ["L_CURLY"] + s + ["R_CURLY"]))
        out.append(("single_" + n, list(s)))
    if depth >= 3:
        s1, s2 = simple_stmts()[0][1], simple_stmts()[1][1]
        out.append(("block_2stmts", ["L_CURLY"] + s1 + s2 + ["R_CURLY"]))
    return out


def statements(depth):
    """(name, tokens) list of statement skeletons; expression positions range over exprs(depth-1) one at a time"""
    E = exprs(max(0, depth - 1))
    S = []

    def with_expr(name, pre, post, es=None):
        for en, e in (es or E):
            S.append((f"{name}<{en}>", pre + e + post))

    # ---- declarations (spec: Types and Casting)
    S.append(("decl", [slot("TYPE"), "IDENT", "SEMICOLON"]))
    with_expr("decl_init", [slot("TYPE"), "IDENT", "EQ"], ["SEMICOLON"])
    S.append(("declw", [slot("TYPEW"), "L_BRACK", slot("IDX"), "R_BRACK", "IDENT", "SEMICOLON"]))
    with_expr("declw_init", [slot("TYPEW"), "L_BRACK", "INT_NUMBER", "R_BRACK", "IDENT", "EQ"], ["SEMICOLON"])
    with_expr("const_decl", ["CONST_KW", slot("TYPE"), "IDENT", "EQ"], ["SEMICOLON"])
    S.append(("const_declw", ["CONST_KW", slot("TYPEW"), "L_BRACK", "INT_NUMBER", "R_BRACK", "IDENT", "EQ", slot("ATOM"), "SEMICOLON"]))
    S.append(("complex_decl", ["COMPLEX_TY", "L_BRACK", "FLOAT_TY", "L_BRACK", "INT_NUMBER", "R_BRACK", "R_BRACK", "IDENT", "SEMICOLON"]))
    S.append(("complex_decl_nofw", ["COMPLEX_TY", "L_BRACK", "FLOAT_TY", "R_BRACK", "IDENT", "EQ", slot("ATOM"), "SEMICOLON"]))
    S.append(("decl_measure", ["BIT_TY", "IDENT", "EQ", "MEASURE_KW", slot("QUBIT"), "SEMICOLON"]))
    S.append(("array_decl", ["ARRAY_KW", "L_BRACK", slot("ARRBASE"), "COMMA", "INT_NUMBER", "R_BRACK", "IDENT", "SEMICOLON"]))
    S.append(("array_decl2", ["ARRAY_KW", "L_BRACK", "INT_TY", "L_BRACK", "INT_NUMBER", "R_BRACK", "COMMA", "INT_NUMBER", "COMMA", "INT_NUMBER", "R_BRACK", "IDENT", "SEMICOLON"]))
    S.append(("array_decl_init", ["ARRAY_KW", "L_BRACK", slot("ARRBASE"), "COMMA", "INT_NUMBER", "R_BRACK", "IDENT", "EQ", "L_CURLY", slot("ATOM"), "COMMA", slot("ATOM"), "R_CURLY", "SEMICOLON"]))
    S.append(("array_decl_init2", ["ARRAY_KW", "L_BRACK", "INT_TY", "COMMA", "INT_NUMBER", "COMMA", "INT_NUMBER", "R_BRACK", "IDENT", "EQ",
                                   "L_CURLY", "L_CURLY", slot("ATOM"), "R_CURLY", "COMMA", "L_CURLY", slot("ATOM"), "R_CURLY", "R_CURLY", "SEMICOLON"]))
    # ---- qubits (spec: Quantum types) and OpenQASM 2 style registers
    S.append(("qubit", ["QUBIT_KW", "IDENT", "SEMICOLON"]))
    S.append(("qubit_reg", ["QUBIT_KW", "L_BRACK", slot("IDX"), "R_BRACK", "IDENT", "SEMICOLON"]))
    S.append(("qreg", ["QREG_KW", "IDENT", "L_BRACK", "INT_NUMBER", "R_BRACK", "SEMICOLON"]))
    S.append(("creg", ["CREG_KW", "IDENT", "L_BRACK", "INT_NUMBER", "R_BRACK", "SEMICOLON"]))
    # oldStyleDeclarationStatement: (CREG | QREG) Identifier designator? SEMICOLON  - the designator is optional
    S.append(("qreg_single", ["QREG_KW", "IDENT", "SEMICOLON"]))
    S.append(("creg_single", ["CREG_KW", "IDENT", "SEMICOLON"]))
    # ---- I/O declarations (spec: Directives / Input-output)
    S.append(("io", [slot("IO"), slot("TYPE"), "IDENT", "SEMICOLON"]))
    S.append(("iow", [slot("IO"), slot("TYPEW"), "L_BRACK", "INT_NUMBER", "R_BRACK", "IDENT", "SEMICOLON"]))
    # ---- gate definitions (spec: Gates)
    for bn, b in [("empty", []), ("call", ["IDENT", "IDENT", "SEMICOLON"]), ("call2", ["IDENT", "IDENT", "SEMICOLON", "IDENT", "L_PAREN", "IDENT", "R_PAREN", "IDENT", "COMMA", "IDENT", "SEMICOLON"])]:
        S.append((f"gate_q_{bn}", ["GATE_KW", "IDENT", "IDENT", "L_CURLY"] + b + ["R_CURLY"]))
    S.append(("gate_qq", ["GATE_KW", "IDENT", "IDENT", "COMMA", "IDENT", "L_CURLY", "R_CURLY"]))
    S.append(("gate_p_q", ["GATE_KW", "IDENT", "L_PAREN", "IDENT", "R_PAREN", "IDENT", "L_CURLY", "IDENT", "L_PAREN", "IDENT", "R_PAREN", "IDENT", "SEMICOLON", "R_CURLY"]))
    S.append(("gate_pp_qq", ["GATE_KW", "IDENT", "L_PAREN", "IDENT", "COMMA", "IDENT", "R_PAREN", "IDENT", "COMMA", "IDENT", "L_CURLY", "R_CURLY"]))
    S.append(("gate_noparams_parens", ["GATE_KW", "IDENT", "L_PAREN", "R_PAREN", "IDENT", "L_CURLY", "R_CURLY"]))
    # ---- subroutines (spec: Subroutines)
    S.append(("def0", ["DEF_KW", "IDENT", "L_PAREN", "R_PAREN", "L_CURLY", "R_CURLY"]))
    S.append(("def1", ["DEF_KW", "IDENT", "L_PAREN", slot("TYPE"), "IDENT", "R_PAREN", "L_CURLY", "R_CURLY"]))
    S.append(("def1w_ret", ["DEF_KW", "IDENT", "L_PAREN", slot("TYPEW"), "L_BRACK", "INT_NUMBER", "R_BRACK", "IDENT", "R_PAREN", ARROW, slot("TYPE"),
                            "L_CURLY", "RETURN_KW", slot("ATOM"), "SEMICOLON", "R_CURLY"]))
    S.append(("def2_qubit", ["DEF_KW", "IDENT", "L_PAREN", slot("TYPE"), "IDENT", "COMMA", "QUBIT_KW", "IDENT", "R_PAREN", ARROW, "BIT_TY",
                             "L_CURLY", "RETURN_KW", "MEASURE_KW", "IDENT", "SEMICOLON", "R_CURLY"]))
    S.append(("def_qreg_param", ["DEF_KW", "IDENT", "L_PAREN", "QUBIT_KW", "L_BRACK", "INT_NUMBER", "R_BRACK", "IDENT", "R_PAREN", "L_CURLY", "R_CURLY"]))
    S.append(("def_arrayref_param", ["DEF_KW", "IDENT", "L_PAREN", slot("ARRMOD"), "ARRAY_KW", "L_BRACK", "INT_TY", "COMMA", "INT_NUMBER", "R_BRACK", "IDENT", "R_PAREN", "L_CURLY", "R_CURLY"]))
    S.append(("def_array_param", ["DEF_KW", "IDENT", "L_PAREN", slot("ARRMOD"), "ARRAY_KW", "L_BRACK", "INT_TY", "L_BRACK", "INT_NUMBER", "R_BRACK", "COMMA", "DIM_KW", "EQ", "INT_NUMBER",
                                  "R_BRACK", "IDENT", "R_PAREN", "L_CURLY", "R_CURLY"]))
    S.append(("def_return_void", ["DEF_KW", "IDENT", "L_PAREN", "R_PAREN", "L_CURLY", "RETURN_KW", "SEMICOLON", "R_CURLY"]))
    with_expr("def_return", ["DEF_KW", "IDENT", "L_PAREN", "R_PAREN", ARROW, slot("TYPE"), "L_CURLY", "RETURN_KW"], ["SEMICOLON", "R_CURLY"])
    S.append(("extern", ["EXTERN_KW", "IDENT", "L_PAREN", slot("TYPE"), "R_PAREN", ARROW, slot("TYPE"), "SEMICOLON"]))
    S.append(("extern2", ["EXTERN_KW", "IDENT", "L_PAREN", slot("TYPE"), "COMMA", slot("TYPEW"), "L_BRACK", "INT_NUMBER", "R_BRACK", "R_PAREN", ARROW, slot("TYPE"), "SEMICOLON"]))
    S.append(("extern_noret", ["EXTERN_KW", "IDENT", "L_PAREN", slot("TYPE"), "R_PAREN", "SEMICOLON"]))
    # ---- gate calls and modifiers (spec: Gates - "Quantum gate modifiers")
    for qn, q in qargs():
        S.append((f"gatecall_{qn}", ["IDENT"] + q + ["SEMICOLON"]))
    with_expr("gatecall_p", ["IDENT", "L_PAREN"], ["R_PAREN", slot("QUBIT"), "SEMICOLON"])
    S.append(("gatecall_pp", ["IDENT", "L_PAREN", slot("ATOM"), "COMMA", slot("ATOM"), "R_PAREN", slot("QUBIT"), "COMMA", slot("QUBIT"), "SEMICOLON"]))
    S.append(("gatecall_hw", ["IDENT", "HARDWAREIDENT", "COMMA", "HARDWAREIDENT", "SEMICOLON"]))
    S.append(("inv", ["INV_KW", "AT", "IDENT", slot("QUBIT"), "SEMICOLON"]))
    with_expr("pow", ["POW_KW", "L_PAREN"], ["R_PAREN", "AT", "IDENT", slot("QUBIT"), "SEMICOLON"])
    S.append(("ctrl", [slot("CTRL"), "AT", "IDENT", slot("QUBIT"), "COMMA", slot("QUBIT"), "SEMICOLON"]))
    S.append(("ctrl_n", [slot("CTRL"), "L_PAREN", slot("ATOM"), "R_PAREN", "AT", "IDENT", slot("QUBIT"), "COMMA", slot("QUBIT"), "COMMA", slot("QUBIT"), "SEMICOLON"]))
    S.append(("mod_chain", [slot("CTRL"), "AT", "INV_KW", "AT", "POW_KW", "L_PAREN", slot("ATOM"), "R_PAREN", "AT", "IDENT", "L_PAREN", slot("ATOM"), "R_PAREN", slot("QUBIT"), "COMMA", slot("QUBIT"), "SEMICOLON"]))
    with_expr("gphase", ["GPHASE_KW", "L_PAREN"], ["R_PAREN", "SEMICOLON"])
    S.append(("ctrl_gphase", ["CTRL_KW", "AT", "GPHASE_KW", "L_PAREN", slot("ATOM"), "R_PAREN", slot("QUBIT"), "SEMICOLON"]))
    # ---- built-in quantum instructions (spec: Built-in quantum instructions)
    for qn, q in qargs()[:3]:
        S.append((f"measure_{qn}" if qn != "qq" else "measure_skip", ["MEASURE_KW"] + (q if qn != "qq" else [slot("QUBIT")]) + ["SEMICOLON"]))
        S.append((f"reset_{qn}" if qn != "qq" else "reset_skip", ["RESET_KW"] + (q if qn != "qq" else [slot("QUBIT")]) + ["SEMICOLON"]))
    S.append(("measure_assign", ["IDENT", "EQ", "MEASURE_KW", slot("QUBIT"), "SEMICOLON"]))
    S.append(("measure_assign_idx", ["IDENT", "L_BRACK", slot("ATOM"), "R_BRACK", "EQ", "MEASURE_KW", "IDENT", "L_BRACK", slot("ATOM"), "R_BRACK", "SEMICOLON"]))
    S.append(("measure_arrow", ["MEASURE_KW", slot("QUBIT"), ARROW, "IDENT", "SEMICOLON"]))
    S.append(("barrier0", ["BARRIER_KW", "SEMICOLON"]))
    for qn, q in qargs():
        S.append((f"barrier_{qn}", ["BARRIER_KW"] + q + ["SEMICOLON"]))
    with_expr("delay", ["DELAY_KW", "L_BRACK"], ["R_BRACK", slot("QUBIT"), "SEMICOLON"], es=[("ident", ["IDENT"])] + [e for e in E if e[0] in ("timing",)])
    S.append(("delay_noq", ["DELAY_KW", "L_BRACK", slot("NUM"), "IDENT", "R_BRACK", "SEMICOLON"]))
    # ---- control flow (spec: Classical instructions - "Looping and branching")
    for bn, b in bodies(depth):
        S.append((f"if_{bn}", ["IF_KW", "L_PAREN", slot("ATOM"), "R_PAREN"] + b))
        S.append((f"while_{bn}", ["WHILE_KW", "L_PAREN", slot("ATOM"), "R_PAREN"] + b))
        S.append((f"for_range_{bn}", ["FOR_KW", slot("TYPE"), "IDENT", "IN_KW", "L_BRACK", slot("ATOM"), "COLON", slot("ATOM"), "R_BRACK"] + b))
    for bn, b in bodies(depth):
        for cn, c in bodies(depth)[:5]:
            S.append((f"ifelse_{bn}_{cn}", ["IF_KW", "L_PAREN", slot("ATOM"), "R_PAREN"] + b + ["ELSE_KW"] + c))
    with_expr("if_cond", ["IF_KW", "L_PAREN"], ["R_PAREN", "L_CURLY", "R_CURLY"])
    with_expr("while_cond", ["WHILE_KW", "L_PAREN"], ["R_PAREN", "L_CURLY", "R_CURLY"])
    S.append(("else_if", ["IF_KW", "L_PAREN", slot("ATOM"), "R_PAREN", "L_CURLY", "R_CURLY", "ELSE_KW", "IF_KW", "L_PAREN", slot("ATOM"), "R_PAREN", "L_CURLY", "R_CURLY", "ELSE_KW", "L_CURLY", "R_CURLY"]))
    S.append(("for_range3", ["FOR_KW", slot("TYPEW"), "L_BRACK", "INT_NUMBER", "R_BRACK", "IDENT", "IN_KW", "L_BRACK", slot("ATOM"), "COLON", slot("ATOM"), "COLON", slot("ATOM"), "R_BRACK", "L_CURLY", "R_CURLY"]))
    S.append(("for_set", ["FOR_KW", slot("TYPE"), "IDENT", "IN_KW", "L_CURLY", slot("ATOM"), "COMMA", slot("ATOM"), "R_CURLY", "L_CURLY", "R_CURLY"]))
    S.append(("for_ident", ["FOR_KW", slot("TYPE"), "IDENT", "IN_KW", "IDENT", "L_CURLY", "R_CURLY"]))
    # forStatement: FOR scalarType Identifier IN (setExpression | '[' rangeExpression ']' | expression) statementOrScope
    S.append(("for_ident_single_gatecall", ["FOR_KW", "INT_TY", "IDENT", "IN_KW", "IDENT", "IDENT", "IDENT", "SEMICOLON"]))
    # setExpression: LBRACE expression (COMMA expression)* COMMA? RBRACE
    S.append(("for_set_trailing_comma", ["FOR_KW", "INT_TY", "IDENT", "IN_KW", "L_CURLY", slot("ATOM"), "COMMA", slot("ATOM"), "COMMA", "R_CURLY", "L_CURLY", "R_CURLY"]))
    S.append(("for_neg_range", ["FOR_KW", "INT_TY", "IDENT", "IN_KW", "L_BRACK", "MINUS", "INT_NUMBER", "COLON", slot("ATOM"), "R_BRACK", "IDENT", "IDENT", "SEMICOLON"]))
    S.append(("switch1", ["SWITCH_KW", "L_PAREN", slot("ATOM"), "R_PAREN", "L_CURLY", "CASE_KW", slot("ATOM"), "L_CURLY", "R_CURLY", "R_CURLY"]))
    S.append(("switch2", ["SWITCH_KW", "L_PAREN", slot("ATOM"), "R_PAREN", "L_CURLY", "CASE_KW", "INT_NUMBER", "COMMA", "INT_NUMBER", "L_CURLY", "IDENT", "IDENT", "SEMICOLON", "R_CURLY",
                          "CASE_KW", "INT_NUMBER", "L_CURLY", "R_CURLY", "DEFAULT_KW", "L_CURLY", "BREAK_KW", "SEMICOLON", "R_CURLY", "R_CURLY"]))
    S.append(("switch_default", ["SWITCH_KW", "L_PAREN", "IDENT", "R_PAREN", "L_CURLY", "DEFAULT_KW", "L_CURLY", "R_CURLY", "R_CURLY"]))
    S.append(("break", ["BREAK_KW", "SEMICOLON"]))
    S.append(("continue", ["CONTINUE_KW", "SEMICOLON"]))
    S.append(("end", ["END_KW", "SEMICOLON"]))
    # ---- assignments (spec: Classical instructions - "Assignment")
    with_expr("assign", ["IDENT", "EQ"], ["SEMICOLON"])
    with_expr("assign_idx", ["IDENT", "L_BRACK", slot("ATOM"), "R_BRACK", "EQ"], ["SEMICOLON"], es=[e for e in E if e[0] in ("atom", "binary", "call1")])
    S.append(("cmpassign", ["IDENT", ("cmpassign",), slot("ATOM"), "SEMICOLON"]))
    S.append(("cmpassign_pow", ["IDENT", ("joint", ["STAR", "STAR", "EQ"]), slot("ATOM"), "SEMICOLON"]))
    # ---- aliases (spec: Types - "Aliasing")
    S.append(("alias", ["LET_KW", "IDENT", "EQ", "IDENT", "SEMICOLON"]))
    S.append(("alias_slice", ["LET_KW", "IDENT", "EQ", "IDENT", "L_BRACK", slot("ATOM"), "COLON", slot("ATOM"), "R_BRACK", "SEMICOLON"]))
    # rangeExpression: expression? COLON expression? (COLON expression)?  - either bound may be absent
    S.append(("alias_slice_open_hi", ["LET_KW", "IDENT", "EQ", "IDENT", "L_BRACK", slot("ATOM"), "COLON", "R_BRACK", "SEMICOLON"]))
    S.append(("alias_slice_open_lo", ["LET_KW", "IDENT", "EQ", "IDENT", "L_BRACK", "COLON", slot("ATOM"), "R_BRACK", "SEMICOLON"]))
    S.append(("alias_concat", ["LET_KW", "IDENT", "EQ", "IDENT", ("joint", ["PLUS", "PLUS"]), "IDENT", "SEMICOLON"]))
    S.append(("alias_set", ["LET_KW", "IDENT", "EQ", "IDENT", "L_BRACK", "L_CURLY", slot("ATOM"), "COMMA", slot("ATOM"), "R_CURLY", "R_BRACK", "SEMICOLON"]))
    # ---- every expression form in every list-like expression position (index, range bound, call argument,
    #      array-literal element, set element, case value, modifier argument)
    E1 = [e for e in E if e[0] in ("atom", "unary", "binary", "paren", "call1", "index", "cast", "timing")]
    with_expr("pos_index", [slot("TYPE"), "IDENT", "EQ", "IDENT", "L_BRACK"], ["R_BRACK", "SEMICOLON"], es=E1)
    with_expr("pos_index2", [slot("TYPE"), "IDENT", "EQ", "IDENT", "L_BRACK", slot("IDX"), "COMMA"], ["R_BRACK", "SEMICOLON"], es=E1)
    with_expr("pos_range_lo", ["LET_KW", "IDENT", "EQ", "IDENT", "L_BRACK"], ["COLON", slot("IDX"), "R_BRACK", "SEMICOLON"], es=E1)
    with_expr("pos_range_hi", ["LET_KW", "IDENT", "EQ", "IDENT", "L_BRACK", slot("IDX"), "COLON"], ["R_BRACK", "SEMICOLON"], es=E1)
    with_expr("pos_range_step", ["FOR_KW", "INT_TY", "IDENT", "IN_KW", "L_BRACK", slot("IDX"), "COLON"], ["COLON", slot("IDX"), "R_BRACK", "L_CURLY", "R_CURLY"], es=E1)
    with_expr("pos_arg2", ["IDENT", "L_PAREN", slot("ATOM"), "COMMA"], ["R_PAREN", "SEMICOLON"], es=E1)
    with_expr("pos_gate_arg2", ["IDENT", "L_PAREN", slot("ATOM"), "COMMA"], ["R_PAREN", slot("QUBIT"), "SEMICOLON"], es=E1)
    with_expr("pos_arraylit1", ["ARRAY_KW", "L_BRACK", "INT_TY", "COMMA", "INT_NUMBER", "R_BRACK", "IDENT", "EQ", "L_CURLY"], ["COMMA", slot("ATOM"), "R_CURLY", "SEMICOLON"], es=E1)
    with_expr("pos_arraylit2", ["ARRAY_KW", "L_BRACK", "INT_TY", "COMMA", "INT_NUMBER", "R_BRACK", "IDENT", "EQ", "L_CURLY", slot("ATOM"), "COMMA"], ["R_CURLY", "SEMICOLON"], es=E1)
    with_expr("pos_set1", ["FOR_KW", "INT_TY", "IDENT", "IN_KW", "L_CURLY"], ["COMMA", slot("ATOM"), "R_CURLY", "L_CURLY", "R_CURLY"], es=E1)
    with_expr("pos_set2", ["FOR_KW", "INT_TY", "IDENT", "IN_KW", "L_CURLY", slot("ATOM"), "COMMA"], ["R_CURLY", "L_CURLY", "R_CURLY"], es=E1)
    with_expr("pos_indexset2", ["LET_KW", "IDENT", "EQ", "IDENT", "L_BRACK", "L_CURLY", slot("IDX"), "COMMA"], ["R_CURLY", "R_BRACK", "SEMICOLON"], es=E1)
    with_expr("pos_case1", ["SWITCH_KW", "L_PAREN", "IDENT", "R_PAREN", "L_CURLY", "CASE_KW"], ["L_CURLY", "R_CURLY", "R_CURLY"], es=[e for e in E1 if e[0] != "timing"])
    with_expr("pos_case2", ["SWITCH_KW", "L_PAREN", "IDENT", "R_PAREN", "L_CURLY", "CASE_KW", "INT_NUMBER", "COMMA"], ["L_CURLY", "R_CURLY", "R_CURLY"], es=[e for e in E1 if e[0] != "timing"])
    with_expr("pos_ctrl_arg", ["CTRL_KW", "L_PAREN"], ["R_PAREN", "AT", "IDENT", slot("QUBIT"), "COMMA", slot("QUBIT"), "SEMICOLON"], es=E1)
    with_expr("pos_switch_target", ["SWITCH_KW", "L_PAREN"], ["R_PAREN", "L_CURLY", "DEFAULT_KW", "L_CURLY", "R_CURLY", "R_CURLY"], es=E1)
    with_expr("pos_alias_rhs", ["LET_KW", "IDENT", "EQ"], ["SEMICOLON"], es=[e for e in E1 if e[0] in ("atom", "index", "paren")])
    with_expr("pos_designator", [slot("TYPEW"), "L_BRACK"], ["R_BRACK", "IDENT", "SEMICOLON"], es=[e for e in E1 if e[0] in ("binary", "paren", "call1", "unary", "index")])
    # ---- expression statements, directives
    with_expr("expr_stmt", [], ["SEMICOLON"], es=[e for e in E if e[0] in ("call0", "call1", "call2", "call_binary")])
    S.append(("pragma", ["PRAGMA"]))
    S.append(("annotation", ["ANNOTATION", "IDENT", "IDENT", "SEMICOLON"]))
    S.append(("annotation2", ["ANNOTATION", "ANNOTATION", slot("TYPE"), "IDENT", "SEMICOLON"]))
    S.append(("include", ["INCLUDE_KW", "STRING", "SEMICOLON"]))
    S.append(("version", ["VERSION_STRING", "SEMICOLON"]))
    S.append(("empty_block_stmt", ["L_CURLY", "R_CURLY"]))
    return [(n, t) for n, t in S if not n.endswith("_skip")]
