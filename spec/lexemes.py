"""Reference lexeme grammar (oracle for C11 and C15), independent of the lexer's own flags and token boundaries.

Sources: OpenQASM 3 live specification, "Comments", "Identifiers", "Types and Casting" (literals), "Version string";
reference ANTLR lexer qasm3Lexer.g4.  Regexes are built with /verif/vf/rx.py over symbolic code points.
"""
import z3
from vf import rx, strmodel

DIG = rx.rng("0", "9")
DIG_ = rx.alt(DIG, rx.ch("_"))
HEX = rx.alt(rx.rng("0", "9"), rx.rng("a", "f"), rx.rng("A", "F"))


def _in(e, table):
    class _C:
        pass
    c = _C(); c.e = e
    return strmodel.in_ranges(c, __import__("vf.unitables", fromlist=["tables"]).tables()[table]).e


def is_dec_(e):
    return z3.Or(z3.And(z3.UGE(e, 48), z3.ULE(e, 57)), e == ord("_"))


def is_hex_(e):
    return z3.Or(is_dec_(e), z3.And(z3.UGE(e, ord("a")), z3.ULE(e, ord("f"))), z3.And(z3.UGE(e, ord("A")), z3.ULE(e, ord("F"))))


def is_ws(e):
    return z3.Or([e == c for c in (9, 10, 11, 12, 13, 32, 0x85, 0x200E, 0x200F, 0x2028, 0x2029)])


XIDS = rx.cls(lambda e: z3.Or(e == ord("_"), _in(e, "XID_Start")))
XIDC = rx.cls(lambda e: _in(e, "XID_Continue"))
# a character the lexer treats as "forbidden in identifiers": a non-ASCII emoji that is not itself an identifier character
EMOJI = rx.cls(lambda e: z3.And(z3.UGE(e, 128), _in(e, "Emoji_Char"), z3.Not(_in(e, "XID_Continue"))))


# ------------------------------------------------------------------------------------------------ malformed lexemes
def malformed_specs(chars):
    """name -> z3 Bool: the input STARTS with a malformed lexeme of that kind (=> token 0 must carry a diagnostic)"""
    out = {}
    # integer with a base prefix but no digits:  0b / 0o / 0x  followed only by underscores
    out["int_prefix_without_digits"] = z3.Or(
        rx.starts_with(rx.seq(rx.ch("0"), rx.anyof("bo"), rx.star(rx.ch("_"))), chars, lambda e: z3.Not(is_dec_(e))),
        rx.starts_with(rx.seq(rx.ch("0"), rx.ch("x"), rx.star(rx.ch("_"))), chars, lambda e: z3.Not(is_hex_(e))))
    # float with an exponent marker but no digits
    mant = rx.alt(rx.seq(DIG, rx.star(DIG_), rx.opt(rx.seq(rx.ch("."), DIG, rx.star(DIG_)))),
                  rx.seq(rx.ch("."), DIG, rx.star(DIG_)))
    out["float_exponent_without_digits"] = rx.starts_with(
        rx.seq(mant, rx.anyof("eE"), rx.opt(rx.anyof("+-")), rx.star(rx.ch("_"))), chars, lambda e: z3.Not(is_dec_(e)))
    # unterminated string: an opening quote and no matching quote in the rest of the input
    if chars:
        c0 = chars[0].e if hasattr(chars[0], "e") else z3.BitVecVal(chars[0], 32)
        rest = [c.e if hasattr(c, "e") else z3.BitVecVal(c, 32) for c in chars[1:]]
        for q, nm in ((34, "double"), (39, "single")):
            out[f"unterminated_{nm}_quoted_string"] = z3.And([c0 == q] + [r != q for r in rest])
    # unterminated block comment: "/*" and no "*/" afterwards
    if len(chars) >= 2:
        es = [c.e if hasattr(c, "e") else z3.BitVecVal(c, 32) for c in chars]
        out["unterminated_block_comment"] = z3.And([es[0] == ord("/"), es[1] == ord("*")] +
                                                   [z3.Not(z3.And(es[i] == ord("*"), es[i + 1] == ord("/"))) for i in range(2, len(es) - 1)])
    # identifier containing forbidden (emoji) characters
    out["identifier_with_forbidden_character"] = z3.Or(
        rx.starts_with(rx.seq(XIDS, rx.star(XIDC), EMOJI), chars),
        rx.starts_with(EMOJI, chars))
    return out


def version_wellformed(chars):
    """chars follow `OPENQASM<ws>`: optional further whitespace, then major[.minor] followed by ';' or whitespace"""
    num = rx.seq(rx.star(rx.ch("_")), DIG, rx.star(DIG_))
    return rx.starts_with(rx.seq(rx.star(rx.cls(is_ws)), num, rx.opt(rx.seq(rx.ch("."), num))), chars,
                          lambda e: z3.Or(e == ord(";"), is_ws(e))) if False else _version_ok(chars, num)


def _version_ok(chars, num):
    acc = rx.ends(rx.seq(rx.star(rx.cls(is_ws)), num, rx.opt(rx.seq(rx.ch("."), num))), chars)
    alts = []
    for p, a in enumerate(acc):
        if p < len(chars):
            e = chars[p].e if hasattr(chars[p], "e") else z3.BitVecVal(chars[p], 32)
            alts.append(z3.And(a, z3.Or(e == ord(";"), is_ws(e))))
    return z3.Or(alts) if alts else z3.BoolVal(False)
