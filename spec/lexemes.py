"""Reference lexeme grammar (oracle for C11 and C15), independent of the lexer's own flags and token boundaries.

Sources: OpenQASM 3 live specification, "Comments", "Identifiers", "Types and Casting" (literals), "Version string";
reference ANTLR lexer qasm3Lexer.g4.  Regexes are built with /verif/vf/rx.py over symbolic code points.
"""
import z3
from vf import rx, strmodel

DIG = rx.rng("0", "9")
DIG_ = rx.alt(DIG, rx.ch("_"))
HEX = rx.alt(rx.rng("0", "9"), rx.rng("a", "f"), rx.rng("A", "F"))


def _in(e, table):
    class _C:
        pass
    c = _C(); c.e = e
    return strmodel.in_ranges(c, strmodel.clipped(table)).e


def is_dec_(e):
    return z3.Or(z3.And(z3.UGE(e, 48), z3.ULE(e, 57)), e == ord("_"))


def is_hex_(e):
    return z3.Or(is_dec_(e), z3.And(z3.UGE(e, ord("a")), z3.ULE(e, ord("f"))), z3.And(z3.UGE(e, ord("A")), z3.ULE(e, ord("F"))))


def is_ws(e):
    return z3.Or([e == c for c in (9, 10, 11, 12, 13, 32, 0x85, 0x200E, 0x200F, 0x2028, 0x2029)])


XIDS = rx.cls(lambda e: z3.Or(e == ord("_"), _in(e, "XID_Start")))
XIDC = rx.cls(lambda e: _in(e, "XID_Continue"))
# a character the lexer treats as "forbidden in identifiers": a non-ASCII emoji that is not itself an identifier character
EMOJI = rx.cls(lambda e: z3.And(z3.UGE(e, 128), _in(e, "Emoji_Char"), z3.Not(_in(e, "XID_Continue"))))


# ------------------------------------------------------------------------------------------------ malformed lexemes
def malformed_specs(chars):
    """name -> z3 Bool: the input STARTS with a malformed lexeme of that kind (=> token 0 must carry a diagnostic)"""
    out = {}
    # integer with a base prefix but no digits:  0b / 0o / 0x  followed only by underscores
    out["int_prefix_without_digits"] = z3.Or(
        rx.starts_with(rx.seq(rx.ch("0"), rx.anyof("bo"), rx.star(rx.ch("_"))), chars, lambda e: z3.Not(is_dec_(e))),
        rx.starts_with(rx.seq(rx.ch("0"), rx.ch("x"), rx.star(rx.ch("_"))), chars, lambda e: z3.Not(is_hex_(e))))
    # float with an exponent marker but no digits
    mant = rx.alt(rx.seq(DIG, rx.star(DIG_), rx.opt(rx.seq(rx.ch("."), DIG, rx.star(DIG_)))),
                  rx.seq(rx.ch("."), DIG, rx.star(DIG_)))
    # (a sign directly after the exponent marker belongs to the exponent: `1E-0` is well formed, `1E-` and `1E-x` are not)
    out["float_exponent_without_digits"] = z3.Or(
        rx.starts_with(rx.seq(mant, rx.anyof("eE"), rx.anyof("+-"), rx.star(rx.ch("_"))), chars, lambda e: z3.Not(is_dec_(e))),
        rx.starts_with(rx.seq(mant, rx.anyof("eE"), rx.star(rx.ch("_"))), chars,
                       lambda e: z3.Not(z3.Or(is_dec_(e), e == ord("+"), e == ord("-")))))
    # unterminated string: an opening quote and no matching quote in the rest of the input
    if chars:
        c0 = chars[0].e if hasattr(chars[0], "e") else z3.BitVecVal(chars[0], 32)
        rest = [c.e if hasattr(c, "e") else z3.BitVecVal(c, 32) for c in chars[1:]]
        for q, nm in ((34, "double"), (39, "single")):
            # a quote ends the string unless an (itself unescaped) backslash stands right before it
            esc = z3.BoolVal(False)
            closes = []
            for r in rest:
                closes.append(z3.And(r == q, z3.Not(esc)))
                esc = z3.And(r == ord("\\"), z3.Not(esc))
            out[f"unterminated_{nm}_quoted_string"] = z3.And([c0 == q] + [z3.Not(c) for c in closes])
    # unterminated block comment: "/*" and no "*/" afterwards
    if len(chars) >= 2:
        es = [c.e if hasattr(c, "e") else z3.BitVecVal(c, 32) for c in chars]
        out["unterminated_block_comment"] = z3.And([es[0] == ord("/"), es[1] == ord("*")] +
                                                   [z3.Not(z3.And(es[i] == ord("*"), es[i + 1] == ord("/"))) for i in range(2, len(es) - 1)])
    # identifier containing forbidden (emoji) characters
    out["identifier_with_forbidden_character"] = z3.Or(
        rx.starts_with(rx.seq(XIDS, rx.star(XIDC), EMOJI), chars),
        rx.starts_with(EMOJI, chars))
    # identifier continued by a character that Unicode's XID_Continue allows but OpenQASM 3 does not: its identifier characters are
    # `_`, [0-9] and the general categories Lu Ll Lt Lm Lo Nl.  Below U+0400 the difference is U+00B7, the combining marks U+0300..U+036F
    # and U+0387 (computed from the Unicode character database; higher code points are left out to stay independent of its version).
    NONOQ3 = rx.cls(lambda e: z3.Or(e == 0xB7, z3.And(z3.UGE(e, 0x300), z3.ULE(e, 0x36F)), e == 0x387))
    OQ3C = rx.cls(lambda e: z3.And(_in(e, "XID_Continue"), z3.Not(z3.Or(e == 0xB7, z3.And(z3.UGE(e, 0x300), z3.ULE(e, 0x36F)), e == 0x387))))
    out["identifier_with_non_openqasm_character"] = rx.starts_with(rx.seq(XIDS, rx.star(OQ3C), NONOQ3), chars)
    return out


def version_wellformed(chars):
    """chars follow `OPENQASM<ws>`: optional further whitespace, then major[.minor] followed by ';' or whitespace"""
    num = rx.seq(DIG, rx.star(DIG))          # VersionSpecifier: [0-9]+ ('.' [0-9]+)?  - no underscores
    return rx.starts_with(rx.seq(rx.star(rx.cls(is_ws)), num, rx.opt(rx.seq(rx.ch("."), num))), chars,
                          lambda e: z3.Or(e == ord(";"), is_ws(e))) if False else _version_ok(chars, num)


def _version_ok(chars, num):
    acc = rx.ends(rx.seq(rx.star(rx.cls(is_ws)), num, rx.opt(rx.seq(rx.ch("."), num))), chars)
    alts = []
    ev = lambda c: c.e if hasattr(c, "e") else z3.BitVecVal(c, 32)
    for p, a in enumerate(acc):
        if p < len(chars):
            e = ev(chars[p])
            # the number ends at `;`, at whitespace or at a comment (`//`, `/*`)
            comment = z3.And(e == ord("/"), z3.Or(ev(chars[p + 1]) == ord("/"), ev(chars[p + 1]) == ord("*"))) if p + 1 < len(chars) else z3.BoolVal(False)
            alts.append(z3.And(a, z3.Or(e == ord(";"), is_ws(e), comment)))
    return z3.Or(alts) if alts else z3.BoolVal(False)


# ------------------------------------------------------------------------------------------------ well-formed lexemes (C15)
# reserved words of OpenQASM 3 as the front end classifies them (spec "Identifiers": keywords may not be used as
# identifiers; qasm3Lexer.g4 keyword rules).  text -> SyntaxKind name
KEYWORDS = {
    "OPENQASM": "O_P_E_N_Q_A_S_M_KW", "barrier": "BARRIER_KW", "box": "BOX_KW", "cal": "CAL_KW", "const": "CONST_KW", "def": "DEF_KW",
    "defcal": "DEFCAL_KW", "defcalgrammar": "DEFCALGRAMMAR_KW", "delay": "DELAY_KW", "extern": "EXTERN_KW", "gate": "GATE_KW",
    "gphase": "GPHASE_KW", "include": "INCLUDE_KW", "let": "LET_KW", "measure": "MEASURE_KW", "reset": "RESET_KW", "break": "BREAK_KW",
    "case": "CASE_KW", "continue": "CONTINUE_KW", "default": "DEFAULT_KW", "else": "ELSE_KW", "end": "END_KW", "for": "FOR_KW", "if": "IF_KW",
    "in": "IN_KW", "return": "RETURN_KW", "switch": "SWITCH_KW", "while": "WHILE_KW", "array": "ARRAY_KW", "creg": "CREG_KW",
    "input": "INPUT_KW", "mutable": "MUTABLE_KW", "output": "OUTPUT_KW", "qreg": "QREG_KW", "qubit": "QUBIT_KW", "readonly": "READONLY_KW",
    "void": "VOID_KW", "ctrl": "CTRL_KW", "inv": "INV_KW", "negctrl": "NEGCTRL_KW", "pow": "POW_KW", "false": "FALSE_KW", "true": "TRUE_KW",
    "angle": "ANGLE_TY", "bit": "BIT_TY", "bool": "BOOL_TY", "complex": "COMPLEX_TY", "duration": "DURATION_TY", "float": "FLOAT_TY",
    "int": "INT_TY", "stretch": "STRETCH_TY", "uint": "UINT_TY",
}
# words that are keyword-like in the front end's table but are produced by dedicated lexer rules
SPECIAL_WORDS = {"pragma": "PRAGMA_KW"}       # (`dim` alone is an identifier: the keyword is `#dim`)
# ('#' is not a lexeme of its own in OpenQASM 3: it only introduces `#pragma` / `#dim`)
PUNCT = {
    "!": "BANG", "$": "DOLLAR", "%": "PERCENT", "&": "AMP", "(": "L_PAREN", ")": "R_PAREN", "*": "STAR", "+": "PLUS", ",": "COMMA",
    "-": "MINUS", ".": "DOT", "/": "SLASH", ":": "COLON", ";": "SEMICOLON", "<": "L_ANGLE", "=": "EQ", ">": "R_ANGLE", "?": "QUESTION", "@": "AT",
    "[": "L_BRACK", "]": "R_BRACK", "^": "CARET", "{": "L_CURLY", "|": "PIPE", "}": "R_CURLY", "~": "TILDE",
}
UNITS = ["ns", "us", "ms", "s", "dt", "µs", "im"]
BIN = rx.anyof("01")
OCT = rx.rng("0", "7")
STRCHAR = rx.cls(lambda e: z3.And(e != 34, e != 39, e != 92, e != 10, e != 13, z3.ULT(e, 0x110000), z3.Or(z3.ULT(e, 0xD800), z3.UGT(e, 0xDFFF))))
NOT01_ = rx.cls(lambda e: z3.And(e != 34, e != 39, e != 92, e != 10, e != 13, e != 48, e != 49, e != 95, z3.ULT(e, 0x110000), z3.Or(z3.ULT(e, 0xD800), z3.UGT(e, 0xDFFF))))


def lexeme_classes():
    """name -> (expected SyntaxKind name(s), list of (length, regex) shapes).  Lengths are in chars.
    An entry with two kinds is a lexeme that the front end splits in two tokens (number + unit)."""
    C = {}
    ident = lambda n: rx.seq(XIDS, *([XIDC] * (n - 1)))
    # Identifier: FirstIdCharacter GeneralIdCharacter* with FirstIdCharacter = '_' | letter: the lone underscore is an identifier too
    C["identifier"] = (["IDENT"], [(1, XIDS), (2, ident(2)), (3, ident(3))])
    C["hardware_qubit"] = (["HARDWAREIDENT"], [(2, rx.seq(rx.ch("$"), DIG)), (3, rx.seq(rx.ch("$"), DIG, DIG))])
    C["int_decimal"] = (["INT_NUMBER"], [(1, DIG), (2, rx.seq(DIG, DIG)), (3, rx.seq(DIG, rx.ch("_"), DIG))])
    C["int_binary"] = (["INT_NUMBER"], [(3, rx.seq(rx.ch("0"), rx.anyof("bB"), BIN)), (5, rx.seq(rx.ch("0"), rx.anyof("bB"), BIN, rx.ch("_"), BIN))])
    C["int_octal"] = (["INT_NUMBER"], [(3, rx.seq(rx.lit("0o"), OCT)), (5, rx.seq(rx.lit("0o"), OCT, rx.ch("_"), OCT))])
    C["int_hex"] = (["INT_NUMBER"], [(3, rx.seq(rx.ch("0"), rx.anyof("xX"), HEX)), (5, rx.seq(rx.ch("0"), rx.anyof("xX"), HEX, rx.ch("_"), HEX))])
    C["float"] = (["FLOAT_NUMBER"], [(3, rx.seq(DIG, rx.ch("."), DIG)), (2, rx.seq(DIG, rx.ch("."))), (2, rx.seq(rx.ch("."), DIG)),
                                     (3, rx.seq(DIG, rx.anyof("eE"), DIG)), (4, rx.seq(DIG, rx.anyof("eE"), rx.anyof("+-"), DIG)),
                                     (5, rx.seq(DIG, rx.ch("."), DIG, rx.anyof("eE"), DIG)), (4, rx.seq(rx.ch("."), DIG, rx.anyof("eE"), DIG)),
                                     (5, rx.seq(DIG, rx.ch("_"), DIG, rx.ch("."), DIG)), (5, rx.seq(DIG, rx.ch("_"), DIG, rx.anyof("eE"), DIG)),
                                     # digits after the point are optional also before an exponent: `1.e3`, `1.e-3`
                                     (4, rx.seq(DIG, rx.ch("."), rx.anyof("eE"), DIG)), (5, rx.seq(DIG, rx.ch("."), rx.anyof("eE"), rx.anyof("+-"), DIG))])
    for u in UNITS:
        C[f"int_{u}"] = (["INT_NUMBER", "IDENT"], [(1 + len(u), rx.seq(DIG, rx.lit(u))), (2 + len(u), rx.seq(DIG, DIG, rx.lit(u))), (3 + len(u), rx.seq(DIG, rx.ch("_"), DIG, rx.lit(u)))])
        C[f"float_{u}"] = (["FLOAT_NUMBER", "IDENT"], [(3 + len(u), rx.seq(DIG, rx.ch("."), DIG, rx.lit(u))), (2 + len(u), rx.seq(rx.ch("."), DIG, rx.lit(u))),
                                                        (2 + len(u), rx.seq(DIG, rx.ch("."), rx.lit(u))), (4 + len(u), rx.seq(rx.ch("."), DIG, rx.anyof("eE"), DIG, rx.lit(u))),
                                                        (3 + len(u), rx.seq(DIG, rx.anyof("eE"), DIG, rx.lit(u))),
                                                        (4 + len(u), rx.seq(DIG, rx.ch("."), rx.anyof("eE"), DIG, rx.lit(u)))])
    C["bit_string"] = (["BIT_STRING"], [(3, rx.seq(rx.ch('"'), BIN, rx.ch('"'))), (5, rx.seq(rx.ch('"'), BIN, rx.ch("_"), BIN, rx.ch('"'))),
                                        (4, rx.seq(rx.ch("'"), BIN, BIN, rx.ch("'")))])
    # BitstringLiteral: '"' ([01] '_'?)* [01] '"' - a quoted text that starts or ends with an underscore (or is one) is a string, not a bit string
    C["string"] = (["STRING"], [(3, rx.seq(rx.ch('"'), NOT01_, rx.ch('"'))), (4, rx.seq(rx.ch('"'), STRCHAR, NOT01_, rx.ch('"'))), (3, rx.seq(rx.ch("'"), NOT01_, rx.ch("'"))),
                                (3, rx.lit('"_"')), (4, rx.seq(rx.ch('"'), BIN, rx.lit('_"'))), (4, rx.seq(rx.lit('"_'), BIN, rx.ch('"')))])
    for w, k in KEYWORDS.items():
        if w != "OPENQASM":
            C["kw_" + w] = ([k], [(len(w), rx.lit(w))])
    for p, k in PUNCT.items():
        C["punct_" + k] = ([k], [(1, rx.ch(p))])
    return C


def line_classes():
    """lexemes that run to the end of the line.  OpenQASM 3: `Pragma: '#'? 'pragma' -> EAT_TO_LINE_END`, `AnnotationKeyword: '@' Identifier ->
    EAT_TO_LINE_END`, `EAT_TO_LINE_END: ~[\r\n]*`, `LineComment: '//' ~[\r\n]*`: neither CR nor LF belongs to the lexeme."""
    NOTNL = rx.cls(lambda e: z3.And(e != 10, e != 13, z3.UGE(e, 32), z3.ULT(e, 127)))
    C = {}
    C["pragma_line"] = (["PRAGMA"], [(9, rx.seq(rx.lit("pragma "), NOTNL, NOTNL)), (10, rx.seq(rx.lit("#pragma "), NOTNL, NOTNL))])
    C["annotation_line"] = (["ANNOTATION"], [(2, rx.seq(rx.ch("@"), rx.rng("a", "z"))), (5, rx.seq(rx.ch("@"), rx.rng("a", "z"), rx.ch(" "), NOTNL, NOTNL))])
    C["line_comment"] = ([], [(2, rx.lit("//")), (4, rx.seq(rx.lit("//"), NOTNL, NOTNL))])
    return C


def other_classes():
    """block comments and the version header (C15 names both).  `BlockComment: '/*' .*? '*/'` - the comment ends at the FIRST `*/`, block
    comments do not nest; `VersionSpecifier: [0-9]+ ('.' [0-9]+)?` after `OPENQASM` and whitespace."""
    C = {}
    # two body characters that cannot close the comment early: the first from { '/', ' ', 'a' }, the second from { '*', ' ', 'a' }
    # (so the body may be `/*`, the start of what a nesting lexer takes for an inner comment)
    C["block_comment"] = ([], [(4, rx.lit("/**/")), (6, rx.seq(rx.lit("/*"), rx.anyof("/ a"), rx.anyof("* a"), rx.lit("*/")))])
    C["version_header"] = (["VERSION_STRING"], [(10, rx.seq(rx.lit("OPENQASM "), DIG)), (12, rx.seq(rx.lit("OPENQASM "), DIG, rx.ch("."), DIG)), (13, rx.seq(rx.lit("OPENQASM  "), DIG, rx.ch("."), DIG))])
    return C


def is_xid_continue(e):
    return _in(e, "XID_Continue")


def is_keyword_text(chars):
    """z3 Bool: the char list spells a reserved word (or the lone underscore)"""
    alts = []
    for w in list(KEYWORDS) + list(SPECIAL_WORDS):
        if len(w) == len(chars):
            alts.append(z3.And([(c.e if hasattr(c, "e") else z3.BitVecVal(c, 32)) == ord(x) for c, x in zip(chars, w)]))
    return z3.Or(alts) if alts else z3.BoolVal(False)
